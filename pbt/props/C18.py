"""C18 - kernel (DFT) fitting is non-negative and reproduces the isotherm; cumulative identity; limits isolation;
range refusal."""
import contextlib
import csv
import os
import shutil
import tempfile

import numpy as np
from hypothesis import strategies as st
from scipy.interpolate import CubicSpline

import pygaps
from pygaps.characterisation import psd_kernel as pk
from pygaps.utilities.exceptions import CalculationError

from pbt import case as K
from pbt.core import Check, HarnessError, Inconclusive, Violation, h16

LEVEL = "exploration"
RULE = (
    "Cases = hypothesis-drawn (kernel, weight vector, pressure grid, spline order[, limits]). Kernel: the shipped "
    "DFT-N2-77K-carbon-slit (by name / by its path), a verbatim copy of it in a per-case temporary directory, or a user "
    "kernel file written by the harness (every wstep-th width from w0, >= 5 widths; every pstep-th pressure node; "
    "loadings x lscale in [0.25,4]; pressures x pscale in [0.5,2]). Weights: sparse (1-6 non-zeros) or dense non-negative "
    "vectors over the kernel's widths normalised to a total pore volume that is log-uniform in 0.15-1.2 cm3/g (70 % of "
    "cases), 0.005-0.15 (15 %) or 1.2-4 (15 %). Grid: 3-177 distinct ascending pressures (size drawn uniformly from the "
    "bands 3-19 / 20-59 / 60-177) taken with a descriptor-seeded generator from the kernel's own nodes, log- or "
    "linearly spaced between them, mixtures, or every step-th node, optionally with the exact first / last node, all "
    "inside [first node, last node]. The isotherm is the exact combination sum_w x_w * kernel_w(p), with "
    "kernel_w(p) from the harness's own reading of the CSV and its own not-a-knot cubic spline with a zero row. "
    "Oracles: distribution >= -1e-12; order 0: widths are the kernel's and sum_w kernel_w(p)*dist_w*dw_w == "
    "kernel_loading (1e-8); residual RMS <= 1e-2*max(RMS(input), 5 mmol/g x max(1, lscale)); fitted isotherm "
    "independent of the spline order; cumulative non-decreasing and == cumsum(dist*dw) of the reported arrays (1e-12); "
    "verbatim copy == shipped; isotherm route (point isotherms in relative pressure and mmol/g, adsorption or "
    "desorption branch, 0-3 extra points above the kernel's range, limits at midpoints between points or beyond): "
    "psd_dft with limits == psd_dft of the isotherm reduced to the points inside the limits, reported index window == "
    "inside window, outside points perturbed (also moved beyond the kernel range) -> identical result; any pressure "
    "above the last node or negative -> CalculationError. Non-trivial = a fit that succeeded and had every clause of "
    "its check evaluated (limits: at least one point outside the limits); distinct by the whole descriptor."
)
ASSUMPTIONS = [
    "kernel isotherms between the tabulated pressures are the not-a-knot cubic spline through the CSV column with a "
    "(0, 0) point prepended (the mechanism named in the property anchors); scipy CubicSpline is the harness's "
    "independent evaluation of it (agreement with the library's interp1d: 1e-15 relative)",
    "the weight of width w_i is dist_i*(w_i - w_{i-1}) with w_{-1} = 0 (first bin starts at zero width)",
    "'within the optimiser tolerance' (written for the SLSQP solver of the pinned tree, kept for the NNLS solver of the "
    "repaired one): an absolute residual scale of 1e-2 mmol/g; the clause asserted is residual RMS <= "
    "1 % of the input RMS, never tighter than 5e-2 mmol/g (x the loading scale of a user kernel in larger units) (probe on the "
    "unchanged tree, 14 000 cases: <= 5e-3 relative for input RMS in [1, 12] mmol/g, <= 1.5e-2 mmol/g absolute below)",
    "a CalculationError from the optimiser itself (reported failure) on an exact combination is a violation: the fit is "
    "a non-negative least squares problem (finite algorithm; never observed on the repaired tree in 10^5 cases)",
    "the kernel's pressure range is [0, last node] for the refusal clause (zero row prepended) and grids are generated "
    "inside [first node, last node]; pressures in (0, first node) are not generated (property silent)",
    "limits are generated strictly between data points (property silent on open/closed ends); a window with fewer "
    "than 3 points may be refused with CalculationError",
]

SHIPPED = "DFT-N2-77K-carbon-slit"
TOL_NEG = 1e-12
TOL_SUM = 1e-8
TOL_CUM = 1e-12
RECON_REL = 1e-2
RECON_FLOOR = 5.0  # mmol/g (x the loading scale of a user kernel in larger units): below it the bound is absolute
# known finding KF-C18-1: class boundary = norm of (kernel matrix^T . loading), half the gradient of the squared residual
# at the optimiser's starting point; see kf_slsqp_early_exit
KF1_MIN_GRAD0 = 1.0e5


def worker_init():
    K.reset_registries()


# ---------------------------------------------------------------------------------------------------------------------
# reference kernel model (harness's own CSV reader + cubic spline)
# ---------------------------------------------------------------------------------------------------------------------
def shipped_csv():
    repo = os.environ.get("VERIF_REPO", "/repo")
    return os.path.join(repo, "src", "pygaps", "data", "kernels", SHIPPED + ".csv")


class RefKernel:
    def __init__(self, widths, nodes, table, lscale=1.0):
        self.lscale = float(lscale)  # loading unit of the kernel relative to the shipped one
        self.widths = np.asarray(widths, dtype=float)
        self.nodes = np.asarray(nodes, dtype=float)
        self.table = np.asarray(table, dtype=float)  # (n_nodes, n_widths)
        if self.table.shape != (len(self.nodes), len(self.widths)):
            raise HarnessError("kernel table shape")
        if not (np.all(np.diff(self.nodes) > 0) and self.nodes[0] > 0 and np.all(np.diff(self.widths) > 0)):
            raise HarnessError("kernel axes not increasing")
        self._spline = CubicSpline(np.concatenate([[0.0], self.nodes]),
                                   np.vstack([np.zeros((1, len(self.widths))), self.table]), bc_type="not-a-knot")
        self.pmin = float(self.nodes[0])
        self.pmax = float(self.nodes[-1])

    def at(self, p):
        """(len(p), n_widths) kernel loadings at pressures p."""
        return self._spline(np.asarray(p, dtype=float))

    def dw(self):
        return np.ediff1d(self.widths, to_begin=self.widths[0])


def read_kernel_csv(path):
    with open(path, newline="", encoding="utf8") as f:
        rows = [r for r in csv.reader(f) if r]
    widths = [float(s) for s in rows[0][1:]]
    nodes = [float(r[0]) for r in rows[1:]]
    table = [[float(s) for s in r[1:]] for r in rows[1:]]
    return RefKernel(widths, nodes, table)


_SHIPPED_REF = None


def shipped_ref():
    global _SHIPPED_REF
    if _SHIPPED_REF is None:
        _SHIPPED_REF = read_kernel_csv(shipped_csv())
    return _SHIPPED_REF


N_W, N_P = 77, 177  # dimensions of the shipped kernel (checked in self_validate)


def self_validate():
    ref = shipped_ref()
    if ref.table.shape != (N_P, N_W):
        raise HarnessError(f"shipped kernel is {ref.table.shape}, expected {(N_P, N_W)}")
    # the reference spline interpolates the table and the zero row, and agrees with an independent evaluation
    # (piecewise cubic Hermite form of the same spline built from its own first derivatives)
    if not np.allclose(ref.at(ref.nodes), ref.table, rtol=1e-12, atol=1e-12):
        raise HarnessError("reference spline does not reproduce the kernel table")
    if not np.allclose(ref.at([0.0]), 0.0, atol=1e-12):
        raise HarnessError("reference spline not zero at zero pressure")
    x = np.concatenate([[0.0], ref.nodes])
    y = np.concatenate([[0.0], ref.table[:, 3]])
    cs = CubicSpline(x, y, bc_type="not-a-knot")
    d = cs(x, 1)
    mid = 0.5 * (x[:-1] + x[1:])
    h = np.diff(x)
    t = 0.5
    herm = ((2 * t ** 3 - 3 * t ** 2 + 1) * y[:-1] + (t ** 3 - 2 * t ** 2 + t) * h * d[:-1] +
            (-2 * t ** 3 + 3 * t ** 2) * y[1:] + (t ** 3 - t ** 2) * h * d[1:])
    if not np.allclose(ref.at(mid)[:, 3], herm, rtol=1e-9, atol=1e-9):
        raise HarnessError("reference spline self-check failed")
    # a user kernel written by the harness reads back to the numbers the harness keeps
    kd = {"kind": "user", "w0": 2, "wstep": 3, "wn": 9, "p0": 1, "pstep": 2, "lscale": 2.0, "pscale": 0.5}
    with kernel_files(kd) as (uref, path):
        back = read_kernel_csv(path)
        if not (np.array_equal(back.table, uref.table) and np.array_equal(back.nodes, uref.nodes) and
                np.array_equal(back.widths, uref.widths)):
            raise HarnessError("user kernel file does not read back")
    if os.path.exists(path) or os.path.exists(os.path.dirname(os.path.dirname(path))):
        raise HarnessError("temporary kernel directory not removed")


def kernel_dims(kd):
    """(n_widths, n_nodes) of the kernel a descriptor stands for."""
    if kd["kind"] != "user":
        return N_W, N_P
    nw = min(kd["wn"], len(range(kd["w0"], N_W, kd["wstep"])))
    nn = len(range(kd["p0"], N_P, kd["pstep"]))
    return nw, nn


def _fmt(v):
    return "%.12g" % v


@contextlib.contextmanager
def kernel_files(kd):
    """Yield (RefKernel, kernel argument for the library). User kernels live in a fresh directory that is removed
    afterwards; the path carries a hash of the kernel descriptor so that the library's path-keyed cache can never
    serve different contents for one path, even if a temporary directory name were reused."""
    kind = kd["kind"]
    if kind == "shipped":
        yield shipped_ref(), SHIPPED
        return
    if kind == "shipped_path":
        yield shipped_ref(), shipped_csv()
        return
    tmp = tempfile.mkdtemp(prefix="C18_kernel_")
    try:
        # <unique dir>/<hash of the descriptor>/kernel.csv: unique path, constant base name
        os.mkdir(os.path.join(tmp, h16(kd)))
        path = os.path.join(tmp, h16(kd), "kernel.csv")
        if kind == "copy":
            shutil.copyfile(shipped_csv(), path)
            yield shipped_ref(), path
        elif kind == "user":
            base = shipped_ref()
            wi = list(range(kd["w0"], N_W, kd["wstep"]))[:kd["wn"]]
            pi = list(range(kd["p0"], N_P, kd["pstep"]))
            # width labels in the user's own length unit (x10: Angstrom - the labels then cross a power of ten)
            head = [repr(float(_fmt(base.widths[i] * kd.get("wscale", 1.0)))) for i in wi]
            lines = ["," + ",".join(head)]
            nodes, table = [], []
            for j in pi:
                ptxt = _fmt(base.nodes[j] * kd["pscale"])
                row = [_fmt(base.table[j, i] * kd["lscale"]) for i in wi]
                nodes.append(float(ptxt))
                table.append([float(s) for s in row])
                lines.append(ptxt + "," + ",".join(row))
            with open(path, "w", encoding="utf8", newline="") as f:
                f.write("\n".join(lines) + "\n")
            yield RefKernel([float(s) for s in head], nodes, table, lscale=kd["lscale"]), path
        else:
            raise HarnessError(f"unknown kernel kind {kind}")
    finally:
        shutil.rmtree(tmp, ignore_errors=True)


# ---------------------------------------------------------------------------------------------------------------------
# descriptors -> numbers
# ---------------------------------------------------------------------------------------------------------------------
def grid_of(ref, g):
    """Distinct ascending pressures inside [first node, last node]. g = {"kind", "n", "rng", "ends": [bool, bool]}:
    n pressures drawn with numpy's default_rng(g["rng"]) from the kernel's nodes / log-uniform / uniform between the
    first and the last node / half-and-half mixtures, or every step-th node; optionally with the exact end nodes."""
    rng = np.random.default_rng(g["rng"])
    kind, n = g["kind"], g["n"]
    nn = len(ref.nodes)

    def nodes(m):
        return ref.nodes[np.sort(rng.choice(nn, size=min(m, nn), replace=False))]

    def logs(m):
        return ref.pmin * (ref.pmax / ref.pmin) ** rng.uniform(0.0, 1.0, m)

    def lins(m):
        return ref.pmin + (ref.pmax - ref.pmin) * rng.uniform(0.0, 1.0, m)

    if kind == "idx":
        parts = [nodes(n)]
    elif kind == "log":
        parts = [logs(n)]
    elif kind == "lin":
        parts = [lins(n)]
    elif kind == "idx+log":
        parts = [nodes(n // 2), logs(n - n // 2)]
    elif kind == "log+lin":
        parts = [logs(n // 2), lins(n - n // 2)]
    elif kind == "stride":
        step = 1 + g["rng"] % 3
        parts = [ref.nodes[(g["rng"] // 3) % step::step][:max(n, 3)]]
    else:
        raise HarnessError(f"grid kind {kind}")
    if g["ends"][0]:
        parts.append([ref.pmin])
    if g["ends"][1]:
        parts.append([ref.pmax])
    p = np.unique(np.clip(np.concatenate(parts), ref.pmin, ref.pmax))
    # keep neighbours apart (limits are placed at midpoints)
    keep = [0]
    for i in range(1, len(p)):
        if p[i] - p[keep[-1]] > 1e-9 * p[i]:
            keep.append(i)
    return p[keep]


def weights_of(ref, desc):
    x = np.zeros(len(ref.widths))
    for i, v in desc["weights"]:
        x[i] += v
    s = x.sum()
    if not s > 0:
        raise HarnessError("weight vector without a positive entry")
    return x * (desc["vol"] / s)


# ---------------------------------------------------------------------------------------------------------------------
# strategies
# ---------------------------------------------------------------------------------------------------------------------
def _user_kernel():
    return st.builds(
        lambda wsc, w0, ws, wn, p0, ps, ls, psc: {"kind": "user", "w0": w0, "wstep": ws, "wn": wn, "p0": p0, "pstep": ps,
                                                  "lscale": ls, "pscale": psc, "wscale": wsc},
        st.sampled_from([1.0, 1.0, 10.0, 2.5]),
        st.integers(0, 20), st.integers(1, 4), st.integers(5, N_W), st.integers(0, 3), st.integers(1, 4),
        st.sampled_from([0.25, 0.5, 1.0, 2.0, 4.0]) | st.floats(0.25, 4.0).map(lambda v: round(v, 4)),
        st.sampled_from([0.5, 1.0, 2.0]) | st.floats(0.5, 2.0).map(lambda v: round(v, 4)))


_KINDS = ["shipped", "user", "copy", "shipped_path", "user", "shipped", "user", "shipped", "user", "copy"]


def _kernel(kinds=None):
    return st.sampled_from(kinds or _KINDS).flatmap(lambda k: _user_kernel() if k == "user" else st.just({"kind": k}))


def _weights(nw):
    sparse = st.lists(st.tuples(st.integers(0, nw - 1), st.integers(1, 1000)), min_size=1, max_size=6,
                      unique_by=lambda t: t[0]).map(lambda l: [list(t) for t in sorted(l)])
    dense = st.lists(st.integers(0, 1000), min_size=nw, max_size=nw).map(
        lambda l: [[i, v] for i, v in enumerate(l) if v > 0] or [[0, 1]])
    # between the two: 8-30 active widths (random subsets and regular strides) - numerically the hardest class for the
    # active-set solver (many exchanges before the support is identified)
    medium = st.lists(st.tuples(st.integers(0, nw - 1), st.integers(1, 1000)), min_size=min(8, nw), max_size=min(30, nw),
                      unique_by=lambda t: t[0]).map(lambda l: [list(t) for t in sorted(l)])
    strided = st.builds(lambda off, step, vals: [[i, vals[k % len(vals)]] for k, i in enumerate(range(off % step, nw, step))] or [[0, 1]],
                        st.integers(0, 6), st.integers(3, 6), st.lists(st.integers(1, 1000), min_size=1, max_size=8))
    return st.one_of(sparse, dense, medium, strided)


def _logu(a, b, u):
    return round(float(10 ** (np.log10(a) + u * (np.log10(b) - np.log10(a)))), 6)


def _vol():
    # total pore volume in cm3/g, log-uniform inside three bands: ordinary (70 %), tiny (15 %), large capacity (15 %)
    return st.tuples(st.sampled_from([1, 1, 0, 1, 2, 1, 1, 0, 1, 2, 1, 1, 1, 0, 1, 2, 1, 1, 1, 1]), st.floats(0, 1)).map(
        lambda t: _logu(*[(0.005, 0.15), (0.15, 1.2), (1.2, 4.0)][t[0]], t[1]))


def _grid(nmin, nmax):
    bands = [b for b in [(3, 19), (20, 59), (60, 177)] if b[0] <= nmax and b[1] >= nmin]
    n = st.one_of([st.integers(max(a, nmin), min(b, nmax)) for a, b in bands])
    return st.builds(
        lambda kind, n, rng, e0, e1: {"kind": kind, "n": n, "rng": rng, "ends": [e0, e1]},
        st.sampled_from(["idx", "log", "lin", "idx+log", "log+lin", "idx", "log", "stride"]), n,
        st.integers(0, 2 ** 31 - 1), st.booleans(), st.booleans())


@st.composite
def strat_fit(draw):
    kd = draw(_kernel())
    nw, nn = kernel_dims(kd)
    return {
        "kernel": kd,
        "weights": draw(_weights(nw)),
        "vol": draw(_vol()),
        "grid": draw(_grid(3, 177)),
        "order": draw(st.sampled_from([2, 1, 3, 0, 2, 1, 3])),
        "as_list": draw(st.booleans()),
    }


@st.composite
def strat_limits(draw):
    kd = draw(_kernel(["shipped", "user", "shipped", "copy", "user", "shipped_path", "shipped"]))
    nw, nn = kernel_dims(kd)
    grid = draw(_grid(6, 90))
    # positions are fractions of the (number of points + 1) gaps; resolved in the check
    # the lower limit mostly in the lower part, the upper one mostly in the upper part; reversed / narrow windows
    # still occur where the two ranges overlap
    f_lo = st.floats(0.0, 0.6).map(lambda v: round(v, 4))
    lim_lo = st.one_of(f_lo, st.none(), st.just(0.0), f_lo, f_lo)
    f_hi = st.floats(0.3, 1.0).map(lambda v: round(v, 4))
    lim_hi = st.one_of(f_hi, st.none(), f_hi, f_hi, f_hi)
    return {
        "kernel": kd,
        "weights": draw(_weights(nw)),
        "vol": draw(st.floats(0, 1).map(lambda u: _logu(0.05, 0.6, u))),
        "grid": grid,
        "order": draw(st.sampled_from([0, 1, 2, 3])),
        "lo": draw(lim_lo),
        "hi": draw(lim_hi),
        "tail": draw(st.sampled_from([0, 1, 0, 2, 0, 3, 0])),
        "branch": draw(st.sampled_from(["ads", "ads", "des"])),
        "units_given": draw(st.booleans()),
        "rng": draw(st.integers(0, 2 ** 31 - 1)),
    }


@st.composite
def strat_range(draw):
    kd = draw(_kernel())
    nw, nn = kernel_dims(kd)
    above = st.sampled_from([1e-12, 1e-9, 1e-6, 1e-3, 3e-3, 0.1, 1.0, 10.0]).map(lambda e: ["above", e])
    below = st.sampled_from([1e-9, 1e-3, 0.5, 2.0]).map(lambda e: ["negative", e])
    return {
        "kernel": kd,
        "weights": draw(_weights(nw)),
        "vol": 0.5,
        "grid": draw(_grid(3, 59)),
        "order": draw(st.sampled_from([0, 1, 2, 3])),
        "bad": draw(st.lists(st.one_of(above, above, below), min_size=1, max_size=3)),
        "via": draw(st.sampled_from(["raw", "raw", "isotherm"])),
        "as_list": draw(st.booleans()),
    }


# ---------------------------------------------------------------------------------------------------------------------
# oracles shared by the checks
# ---------------------------------------------------------------------------------------------------------------------
def _arr(a, what):
    a = np.asarray(a, dtype=float)
    if a.ndim != 1:
        raise Violation(f"{what} is not one-dimensional (shape {a.shape})", tag="shape")
    return a


def assert_distribution(widths, dist, cum, what):
    """Non-negativity, cumulative monotone and == running integral, on the reported arrays (any spline order)."""
    widths, dist, cum = _arr(widths, "pore_widths"), _arr(dist, "pore_distribution"), _arr(cum, "pore_volume_cumulative")
    if not (len(widths) == len(dist) == len(cum)) or len(widths) == 0:
        raise Violation(f"{what}: lengths of widths/distribution/cumulative differ: {len(widths)}/{len(dist)}/{len(cum)}",
                        tag="shape")
    if not np.all(dist >= -TOL_NEG):  # NaN fails too
        i = int(np.argmin(np.where(np.isnan(dist), -np.inf, dist)))
        raise Violation(f"{what}: pore_distribution[{i}] = {float(dist[i])!r} at width {float(widths[i])!r} is negative / not a number",
                        tag="negative")
    scale = max(float(np.max(np.abs(cum))), 1e-300)
    dc = np.diff(cum)
    if not np.all(dc >= -TOL_CUM * scale):
        i = int(np.argmin(dc))
        raise Violation(f"{what}: pore_volume_cumulative decreases from {float(cum[i])!r} to {float(cum[i + 1])!r} at index {i + 1}",
                        tag="cumulative_monotone")
    want = np.cumsum(dist * np.ediff1d(widths, to_begin=widths[0]))
    if not np.all(np.abs(cum - want) <= TOL_CUM * max(scale, float(np.max(np.abs(want)))) + 1e-300):
        i = int(np.argmax(np.abs(cum - want)))
        raise Violation(f"{what}: pore_volume_cumulative[{i}] = {float(cum[i])!r} but the running integral of the reported "
                        f"distribution is {float(want[i])!r}", tag="cumulative_integral")


def assert_order0(ref, p, widths, dist, kl, what):
    """Order 0: the reported widths are the kernel's; the kernel-weighted sum is the reported fitted isotherm."""
    widths, dist, kl = _arr(widths, "pore_widths"), _arr(dist, "pore_distribution"), _arr(kl, "kernel_loading")
    if len(widths) != len(ref.widths) or not np.allclose(widths, ref.widths, rtol=1e-12, atol=0):
        raise Violation(f"{what}: reported pore widths {widths[:4].tolist()}... (n={len(widths)}) are not the kernel's "
                        f"{ref.widths[:4].tolist()}... (n={len(ref.widths)})", tag="widths")
    if len(kl) != len(p):
        raise Violation(f"{what}: kernel_loading has {len(kl)} values for {len(p)} pressures", tag="shape")
    x = dist * ref.dw()
    recon = ref.at(p) @ x
    scale = max(float(np.max(np.abs(kl))), float(np.max(np.abs(recon))))
    if not np.all(np.abs(recon - kl) <= TOL_SUM * scale + 1e-12):
        i = int(np.argmax(np.abs(recon - kl)))
        raise Violation(f"{what}: kernel-weighted sum of the reported distribution at p={float(p[i])!r} is {float(recon[i])!r} but the "
                        f"reported fitted loading is {float(kl[i])!r}", tag="weighted_sum")


def grad0(ref, p, L):
    return float(np.linalg.norm(ref.at(p).T @ np.asarray(L, dtype=float)))


def assert_reconstruction(ref, p, L, kl, what):
    L, kl = np.asarray(L, dtype=float), _arr(kl, "kernel_loading")
    if len(kl) != len(L):
        raise Violation(f"{what}: kernel_loading has {len(kl)} values for {len(L)} points", tag="shape")
    rms = float(np.sqrt(np.mean(L ** 2)))
    res = float(np.sqrt(np.mean((kl - L) ** 2)))
    bound = RECON_REL * max(rms, RECON_FLOOR * max(1.0, ref.lscale))
    if not res <= bound:  # NaN fails
        raise Violation(
            f"{what}: input is an exact non-negative combination of kernel isotherms (RMS {rms:.6g}, max {float(np.max(L)):.6g} "
            f"mmol/g, {len(L)} points) but the fitted isotherm misses it by RMS {res:.6g} (> {bound:.6g})",
            tag="reconstruction", detail={"grad0": grad0(ref, p, L), "sumsq": float(np.sum(L ** 2)), "rms": rms, "n": len(L),
                                          "rel": res / max(rms, 1e-300)})
    return rms


def _same(a, b):
    a, b = np.asarray(a, dtype=float), np.asarray(b, dtype=float)
    return a.shape == b.shape and bool(np.array_equal(a, b, equal_nan=True))


def _regime(ref, p, L):
    rms = float(np.sqrt(np.mean(np.square(L))))
    if grad0(ref, p, L) >= KF1_MIN_GRAD0:
        return "scale_large"
    return "scale_below_floor" if rms < RECON_FLOOR * max(1.0, ref.lscale) else "scale_mid"


def _kernel_label(kd):
    return "kernel_" + kd["kind"]


def _weights_label(desc):
    n = len(desc["weights"])
    return "weights_sparse" if n <= 6 else "weights_medium" if n <= 30 else "weights_dense"


def _grid_label(g):
    return "grid_" + g["kind"]


# ---------------------------------------------------------------------------------------------------------------------
# check 1: raw fit on exact combinations
# ---------------------------------------------------------------------------------------------------------------------
def _raw_fit(p, L, karg, order, as_list):
    # a name is resolved the way psd_dft resolves it
    path = pygaps.data.KERNELS.get(karg, karg)
    if as_list:
        return pk.psd_dft_kernel_fit([float(v) for v in p], [float(v) for v in L], path, order)
    return pk.psd_dft_kernel_fit(np.array(p, dtype=float), np.array(L, dtype=float), path, order)


def check_fit(desc, ctx):
    kd = desc["kernel"]
    with kernel_files(kd) as (ref, karg):
        p = grid_of(ref, desc["grid"])
        x = weights_of(ref, desc)
        L = ref.at(p) @ x
        what = f"psd_dft_kernel_fit({kd['kind']} kernel, {len(p)} points, order 0)"
        ctx.label(_kernel_label(kd), _weights_label(desc), _grid_label(desc["grid"]), f"order_{desc['order']}", _regime(ref, p, L),
                  "points_" + ("3-19" if len(p) < 20 else "20-59" if len(p) < 60 else "60+"))
        try:
            w0, d0, c0, kl0 = _raw_fit(p, L, karg, 0, desc["as_list"])
        except CalculationError as e:
            if "Minimization of DFT failed" in str(e):
                # non-negative least squares is a finite algorithm: an exact non-negative combination on a grid inside
                # the kernel's range has a fitted isotherm that matches it - a refusal is not one
                raise Violation(f"{what}: an exact non-negative combination of kernel isotherms is refused by the optimiser: {e}",
                                tag="exact_combination_refused")
            raise Violation(f"{what}: pressures inside the kernel range [{ref.pmin!r}, {ref.pmax!r}] refused: {e}",
                            tag="refused_inside_range")
        assert_distribution(w0, d0, c0, what)
        assert_order0(ref, p, w0, d0, kl0, what)
        order = desc["order"]
        if order:
            whatk = what.replace("order 0", f"order {order}")
            try:
                wk, dk, ck, klk = _raw_fit(p, L, karg, order, desc["as_list"])
            except CalculationError as e:
                raise Violation(f"{whatk}: refused ({e}) although order 0 succeeded on the same data",
                                tag="order_refused")
            assert_distribution(wk, dk, ck, whatk)
            if not _same(klk, kl0):
                raise Violation(f"{whatk}: the reported fitted isotherm differs from the kernel-weighted sum of the "
                                f"fitted (order 0) distribution of the same data (max diff "
                                f"{float(np.max(np.abs(np.asarray(klk) - np.asarray(kl0)))):.3g})", tag="fit_depends_on_order")
            if not (float(np.min(wk)) >= ref.widths[0] * (1 - 1e-12) and float(np.max(wk)) <= ref.widths[-1] * (1 + 1e-12)):
                raise Violation(f"{whatk}: reported widths [{float(np.min(wk))!r}, {float(np.max(wk))!r}] leave the kernel's width range",
                                tag="widths")
        if kd["kind"] in ("copy", "shipped_path"):
            ws, ds, cs_, kls = _raw_fit(p, L, SHIPPED, 0, desc["as_list"])
            if not (_same(ws, w0) and _same(ds, d0) and _same(cs_, c0) and _same(kls, kl0)):
                raise Violation(f"{what}: a kernel file with the shipped kernel's contents gives a different result than "
                                "the shipped kernel", tag="user_copy_differs")
        assert_reconstruction(ref, p, L, kl0, what)
        ctx.nt(desc, desc)


# ---------------------------------------------------------------------------------------------------------------------
# check 2: psd_dft on isotherms - limits isolation (and range refusal through the limits)
# ---------------------------------------------------------------------------------------------------------------------
_ISO_UNITS = dict(pressure_mode="relative", loading_basis="molar", loading_unit="mmol", material_basis="mass",
                  material_unit="g", temperature_unit="K")
_KERNEL_UNITS = dict(loading_basis="molar", loading_unit="mmol", material_basis="mass", material_unit="g",
                     pressure_mode="relative", pressure_unit=None)


def _iso(p, L, branch, units=None):
    """Point isotherm in the kernel's own units (relative pressure, mmol/g) unless `units` says otherwise. For branch
    'des' the data of interest is the desorption leg (descending pressures) behind an unrelated adsorption leg."""
    units = units or _ISO_UNITS
    p, L = [float(v) for v in p], [float(v) for v in L]
    if branch == "ads":
        return pygaps.PointIsotherm(pressure=p, loading=L, branch="ads", material="m-0", adsorbate="N2", temperature=77.0,
                                    **units)
    pa = [0.25 * p[0], 0.5 * p[0]]
    la = [0.0, 0.0]
    return pygaps.PointIsotherm(pressure=pa + p[::-1], loading=la + L[::-1], branch=[False] * 2 + [True] * len(p),
                                material="m-0", adsorbate="N2", temperature=77.0, **units)


def _limit_value(frac, P):
    """frac in [0,1] -> (value strictly between two neighbouring points or beyond the ends, number of points below)."""
    n = len(P)
    k = min(int(frac * (n + 1)), n)
    if k == 0:
        return float(0.5 * P[0]), 0
    if k == n:
        return float(1.5 * P[-1]), n
    return float(0.5 * (P[k - 1] + P[k])), k


def _res_same(a, b):
    return all(_same(a[key], b[key]) for key in ("pore_widths", "pore_distribution", "pore_volume_cumulative",
                                                 "kernel_loading"))


def check_limits(desc, ctx):
    kd = desc["kernel"]
    rng = np.random.default_rng(desc["rng"])
    with kernel_files(kd) as (ref, karg):
        p_in = grid_of(ref, desc["grid"])
        x = weights_of(ref, desc)
        L_in = ref.at(p_in) @ x
        n_in = len(p_in)
        # optional tail of points ABOVE the kernel's pressure range (must be cut off by the upper limit)
        tail = desc["tail"]
        p_tail = ref.pmax * (1.0 + np.array([1e-6, 1e-3, 2e-2][:tail]))
        L_tail = L_in[-1] * (1.0 + 0.01 * np.arange(1, tail + 1))
        P = np.concatenate([p_in, p_tail])
        L = np.concatenate([L_in, L_tail])
        N = len(P)
        lo = hi = None
        k_lo, k_hi = 0, N
        if desc["lo"] is not None:
            if desc["lo"] == 0.0:
                lo = 0.0  # "from zero pressure": no point lies below
            else:
                lo, k_lo = _limit_value(desc["lo"], P)
        if desc["hi"] is not None:
            hi, k_hi = _limit_value(desc["hi"], P)
        inside = list(range(k_lo, k_hi))
        branch = desc["branch"]
        order = desc["order"]
        kwargs = dict(kernel=karg, branch=branch, bspline_order=order)
        if desc["units_given"]:
            kwargs["kernel_units"] = dict(_KERNEL_UNITS)
        what = (f"psd_dft({kd['kind']} kernel, branch={branch}, {N} points, {tail} above the kernel range, "
                f"p_limits=({lo!r}, {hi!r}), order {order})")
        ctx.label(_kernel_label(kd), "branch_" + branch, f"tail_{tail}",
                  "limits_" + ("none" if lo is None and hi is None else "lower" if hi is None else "upper" if lo is None
                               else "both"))
        # a user kernel may be tabulated against ABSOLUTE pressure in its own unit (kernel_units): read its pressure axis
        # as kPa and store the isotherm in bar - the analysis has to convert (only for grids strictly inside the range, so
        # that the decimal unit factor cannot push an end point across the kernel's limits)
        foreign = (kd["kind"] == "user" and desc["rng"] % 3 == 0 and float(p_in.max()) < ref.pmax * (1 - 1e-9)
                   and float(p_in.min()) > ref.pmin * (1 + 1e-9))
        if foreign:
            kwargs["kernel_units"] = dict(_KERNEL_UNITS, pressure_mode="absolute", pressure_unit="kPa")
            ctx.label("kernel_in_absolute_kPa_isotherm_in_bar")

        def mk_iso(pp, ll):
            if foreign:
                return _iso(np.asarray(pp, dtype=float) / 100.0, ll, branch,
                            dict(_ISO_UNITS, pressure_mode="absolute", pressure_unit="bar"))
            return _iso(pp, ll, branch)
        iso = mk_iso(P, L)
        includes_tail = any(i >= n_in for i in inside)

        def run(isotherm, limits):
            return pk.psd_dft(isotherm, p_limits=limits, **kwargs)

        limits = None if (lo is None and hi is None) else (lo, hi)
        if len(inside) < 3:
            # too few points: the documented refusal; a result, if any, must still come from the inside points only
            try:
                res = run(iso, limits)
            except CalculationError:
                ctx.label("few_points_refused")
                ctx.nt(["few", desc], desc)
                return
            if not inside:
                raise Violation(f"{what}: no point lies inside the limits but a result was returned", tag="limits_empty")
            exp = _raw_fit(P[inside], L[inside], karg, order, False)
            if not (_same(res["pore_distribution"], exp[1]) and _same(res["kernel_loading"], exp[3])):
                raise Violation(f"{what}: result differs from the fit of the {len(inside)} inside points", tag="limits_subset")
            ctx.label("few_points_fitted")
            return
        if includes_tail:
            # a point above the kernel's range is inside the limits: calculation error required
            try:
                res = run(iso, limits)
            except CalculationError as e:
                if "kernel" not in str(e).lower():
                    raise Violation(f"{what}: refused, but not as a kernel range problem: {e}", tag="range_refusal_reason")
                ctx.label("range_refused_via_isotherm")
                ctx.nt(["range", desc], desc)
                return
            raise Violation(f"{what}: pressure {float(P[inside[-1]])!r} above the kernel's last pressure {ref.pmax!r} was not "
                            f"refused (returned {len(res['kernel_loading'])} fitted points)", tag="range_not_refused")
        # regular case: >= 3 points, all inside the kernel range
        sub = mk_iso(P[inside], L[inside])
        try:
            res = run(iso, limits)
        except CalculationError as e:
            try:
                run(sub, None)
            except CalculationError:
                ctx.label("optimiser_reported_failure")
                raise Inconclusive()
            raise Violation(f"{what}: refused ({e}) although the {len(inside)} points inside the limits can be fitted",
                            tag="limits_refused")
        try:
            res_sub = run(sub, None)
        except CalculationError as e:
            raise Violation(f"{what}: succeeds, but the isotherm reduced to the {len(inside)} inside points is refused ({e})",
                            tag="limits_subset")
        if not _res_same(res, res_sub):
            dmax = float(np.max(np.abs(np.asarray(res["kernel_loading"]) - np.asarray(res_sub["kernel_loading"])))) \
                if len(res["kernel_loading"]) == len(res_sub["kernel_loading"]) else float("nan")
            raise Violation(f"{what}: result differs from psd_dft of the isotherm reduced to the {len(inside)} points "
                            f"inside the limits (fitted points {len(res['kernel_loading'])} vs {len(res_sub['kernel_loading'])}, "
                            f"max loading difference {dmax:.3g})", tag="limits_subset")
        if limits is None and branch == "ads" and not foreign and N >= 4:
            # the same points stored in another table order (a few low-pressure points measured last, appended at the
            # end): without limits nothing depends on the order of the rows - every fitted value still belongs
            # to its own pressure
            kk = 1 + int(desc["rng"]) % min(5, N - 1)
            perm = list(range(kk, N)) + list(range(kk))
            try:
                res_p = run(mk_iso(P[perm], L[perm]), None)
            except CalculationError as e:
                raise Violation(f"{what}: the same points stored in another row order are refused ({e})", tag="row_order")
            kl, klp = np.asarray(res["kernel_loading"], dtype=float), np.asarray(res_p["kernel_loading"], dtype=float)
            # (the fitted isotherm is compared, at 1e-6: the distribution behind it is the solution of an ill-conditioned
            # least-squares problem whose last digits may depend on the order of the rows)
            if not (klp.shape == kl.shape
                    and np.allclose(klp, kl[perm], rtol=1e-6, atol=1e-9 * float(np.max(np.abs(kl))))):
                raise Violation(f"{what}: the same points stored in another row order (first {kk} points moved to the end) "
                                f"give another result: max |fitted loading difference| "
                                f"{float(np.max(np.abs(klp - kl[perm]))) if klp.shape == kl.shape else 'shape'}",
                                tag="row_order")
            ctx.label("row_order_variant")
        got = tuple(int(v) for v in res["limits"])
        if got != (inside[0], inside[-1]):
            raise Violation(f"{what}: reported index window {got} but the points inside the limits are "
                            f"{inside[0]}..{inside[-1]}", tag="limits_indices")
        # outside points perturbed: loadings replaced, pressures moved inside their gaps, upper ones pushed beyond the
        # kernel range
        outside = [i for i in range(N) if i < k_lo or i >= k_hi]
        if outside:
            P2, L2 = P.copy(), L.copy()
            for i in outside:
                L2[i] = L[i] * rng.uniform(0.0, 3.0) + rng.uniform(0.0, 5.0)
                if i < k_lo:
                    a = P[i - 1] if i > 0 else 0.25 * P[0]
                    b = P[i + 1] if i + 1 < k_lo else lo
                else:
                    a = P[i - 1] if i - 1 >= k_hi else hi
                    b = P[i + 1] if i + 1 < N else 2.0 * P[-1]
                P2[i] = a + (b - a) * rng.uniform(0.25, 0.75)
            if k_hi < N and rng.uniform() < 0.5:
                # everything above the upper limit moved above the kernel's range
                shift = np.linspace(1.001, 1.5, N - k_hi)
                P2[k_hi:] = np.maximum(P2[k_hi:], ref.pmax) * shift
            try:
                res2 = run(mk_iso(P2, L2), limits)
            except CalculationError as e:
                raise Violation(f"{what}: after changing only points OUTSIDE the limits (pressures {P2[outside].tolist()[:6]}, "
                                f"loadings {L2[outside].tolist()[:6]}) the call is refused: {e}", tag="limits_outside_influence")
            if not _res_same(res, res2) or tuple(int(v) for v in res2["limits"]) != got:
                raise Violation(f"{what}: changing only points OUTSIDE the limits (indices {outside}) changed the result",
                                tag="limits_outside_influence")
            ctx.label("outside_perturbed")
        # the fit clauses hold for the isotherm route as well
        assert_distribution(res["pore_widths"], res["pore_distribution"], res["pore_volume_cumulative"], what)
        if order == 0:
            assert_order0(ref, P[inside], res["pore_widths"], res["pore_distribution"], res["kernel_loading"], what)
        if not includes_tail and all(i < n_in for i in inside):
            assert_reconstruction(ref, P[inside], L[inside], res["kernel_loading"], what)
        if outside:
            ctx.nt(desc, desc)
        else:
            ctx.label("no_point_outside")


# ---------------------------------------------------------------------------------------------------------------------
# check 3: pressures outside the kernel's range are refused with a calculation error
# ---------------------------------------------------------------------------------------------------------------------
def check_range(desc, ctx):
    kd = desc["kernel"]
    with kernel_files(kd) as (ref, karg):
        p = grid_of(ref, desc["grid"])
        x = weights_of(ref, desc)
        L = ref.at(p) @ x
        via = desc["via"]
        bad = []
        for kind, e in desc["bad"]:
            if kind == "above":
                bad.append(ref.pmax * (1.0 + e))
            elif via == "raw":
                bad.append(-e * ref.pmin if e < 1 else -e)
            else:
                bad.append(ref.pmax * (1.0 + e))  # isotherms: only the upper side is generated
        bad = sorted(set(bad))
        P = np.array(sorted(set(p.tolist()) | set(bad)))
        Lall = np.interp(P, p, L)
        order = desc["order"]
        what = f"{via} fit ({kd['kind']} kernel range [0, {ref.pmax!r}]) with pressures {bad} among {len(P)} points"
        ctx.label(_kernel_label(kd), "via_" + via, "negative" if bad[0] < 0 else "above")
        try:
            if via == "raw":
                out = _raw_fit(P, Lall, karg, order, desc["as_list"])
                n_out = len(out[3])
            else:
                out = pk.psd_dft(_iso(P, Lall, "ads"), kernel=karg, bspline_order=order)
                n_out = len(out["kernel_loading"])
        except CalculationError as e:
            if "Minimization of DFT failed" in str(e):
                raise Violation(f"{what}: reached the optimiser instead of being refused ({e})", tag="range_not_refused")
            ctx.nt(desc, desc)
            return
        raise Violation(f"{what}: not refused, returned a fit of {n_out} points", tag="range_not_refused")


# ---------------------------------------------------------------------------------------------------------------------
# known findings
# ---------------------------------------------------------------------------------------------------------------------
def kf_slsqp_early_exit(check_name, desc, viol):
    """KF-C18-1: SLSQP, started from zero on the unscaled problem, takes a first step as long as the gradient
    (objective ~1e17-1e19), comes back and reports success far from the minimum (residual 10-70 % of the signal).
    Class: reconstruction clause only, and only inputs whose starting gradient is large, |K^T L| >= 1e5 (shipped
    kernel: roughly 100 points of 10-15 mmol/g and more; a kernel in 4x larger loading units: 100 points of
    4 mmol/g). Probes on the unchanged tree: lowest failing |K^T L| 1.95e5 in 3 000 mixed cases, no failure in 1 920
    cases below 1e5; a reconstruction failure of a smaller problem is still reported."""
    if check_name not in ("fit_exact", "limits_isolation") or viol.tag != "reconstruction":
        return False
    d = viol.detail or {}
    return d.get("grad0", 0.0) >= KF1_MIN_GRAD0


CHECKS = [
    Check("fit_exact", check_fit, strategy=strat_fit, budget={"quick": 224, "thorough": 4000}, shrink_quick=False,
          rule="raw psd_dft_kernel_fit on exact non-negative kernel combinations (order 0 plus the drawn order)"),
    Check("limits_isolation", check_limits, strategy=strat_limits, budget={"quick": 128, "thorough": 2000},
          shrink_quick=False,
          rule="psd_dft(isotherm, p_limits): equals the isotherm reduced to the inside points; outside points perturbed"),
    Check("range_refusal", check_range, strategy=strat_range, budget={"quick": 400, "thorough": 8000},
          rule="any pressure above the kernel's last node / negative -> CalculationError (raw and through an isotherm)"),
]
