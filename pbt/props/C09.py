"""C09 - database operations are atomic under statement failures and process death (fault enumeration)."""
import sqlite3

from hypothesis import strategies as st

import pygaps
from pygaps.core.adsorbate import Adsorbate
from pygaps.core.baseisotherm import BaseIsotherm
from pygaps.core.material import Material
from pygaps.data import ADSORBATE_LIST, MATERIAL_LIST
from pygaps.modelling import model_from_dict
from pygaps.parsing import sqlite as pgsql
from pygaps.utilities.exceptions import ParsingError

from pbt import case as K
from pbt import faults_C09 as F
from pbt.core import Check, HarnessError, Inconclusive, Violation, canon

LEVEL = "fault_enumeration"
RULE = (
    "A scenario = hypothesis-drawn (prior database contents, registry state, one public write operation with its "
    "item). Prior contents (0-3 materials with 0-4 properties, 0-2 user adsorbates, 0-3 base/point/model isotherms on "
    "them, extra property/isotherm types) are stored through the library itself into a copy of an empty store created "
    "by the current tree's db_create; the registry state is either the one left by that process or that of a fresh "
    "process. Operations: material/adsorbate upload, overwrite, delete; property-type and isotherm-type upload, "
    "overwrite, delete (3 tables); isotherm upload (base/point/model; material and adsorbate each new=auto-inserted or "
    "already stored) and isotherm delete. Per scenario a dry run through the counting sqlite3 shim gives the N "
    "statements issued (PRAGMA and SELECTs included); then EVERY fault is executed on a fresh copy of the pre-image: "
    "IntegrityError / InterfaceError / OperationalError raised instead of statement k for every k in [0,N), os._exit "
    "in a forked child before statement k and after statement k for every k in [0,N), os._exit just before and just "
    "after commit (= positions N): 5N+2 fault runs, exhaustive over positions per scenario. After each fault, through "
    "an independent sqlite3 connection: all tables equal exactly the pre-image or exactly the post-image of the "
    "fault-free run (full rows, autoincrement ids replaced by the referenced name), foreign_key_check and "
    "integrity_check clean, every item stored before (other than the operation's target) is returned unchanged by "
    "materials/isotherms/*_types_from_db (every run) and adsorbates_from_db (operations touching adsorbate tables; "
    "once per distinct file content of the scenario); then the same operation is repeated without faults (same process "
    "and the registries the failed call left for raised faults; the start state for kills): from the pre-image it must "
    "succeed and give the post-image, from the post-image it must behave exactly like a fault-free second call. "
    "Second check: operations that fail naturally part-way (NOT NULL / FOREIGN KEY / unsupported value at a later "
    "statement, referenced item deleted) must leave exactly the pre-image. Non-trivial = fault position strictly "
    "inside the operation (0<k<N) whose all-or-nothing, pragma and reader clauses were evaluated; distinct by "
    "(operation variant, content class, k, kind); labels `runs:<operation>:<kind>` count fault runs, `repeat_held:<operation>` those whose repeat "
    "clause held as well (the rest are the repeat-clause known finding)."
)
ASSUMPTIONS = [
    "faults are injected at Python-visible boundaries (each execute call, before/after commit); SQLite's rollback "
    "journal is trusted for atomic commit against process death (instants inside the C library's commit, power loss "
    "and torn pages are out of reach); os._exit in a forked child models abrupt process death (no buffers flushed, no "
    "finally blocks, the file descriptors are closed by the kernel)",
    "a raised fault replaces the statement (the statement is rejected and has no effect); like a real failing "
    "execute() it first resets the statement still active on the cursor. The shim lowers the connection busy timeout "
    "from 5 s to 0.25 s (nothing else accesses the scratch file, so a lock wait can only be a self-inflicted deadlock)",
    "after a kill the operation is repeated from the registry state the killed process started with (a new process "
    "never learns the contents of a user database file, so this is the state in which the first attempt was valid)",
    "the property does not prescribe the exception type: ParsingError or any sqlite3.Error is accepted from a faulted "
    "call; any other exception escaping the library is reported as a crash",
    "isotherm_property_type_* functions are not exercised: db_create creates no isotherm_properties_type table, the "
    "calls fail on their first statement in every store",
]

STOCK_ADS = ["nitrogen", "argon", "carbon dioxide", "methane", "water"]
UNITS = dict(pressure_mode="absolute", pressure_unit="bar", loading_basis="molar", loading_unit="mmol",
             material_basis="mass", material_unit="g", temperature_unit="K")
TYPE_API = {
    "material": (pgsql.material_property_type_to_db, pgsql.material_property_type_delete_db,
                 pgsql.material_property_types_from_db),
    "adsorbate": (pgsql.adsorbate_property_type_to_db, pgsql.adsorbate_property_type_delete_db,
                  pgsql.adsorbate_property_types_from_db),
    "isotherm": (pgsql.isotherm_type_to_db, pgsql.isotherm_type_delete_db, pgsql.isotherm_types_from_db),
}
LIB_ERRORS = (ParsingError, sqlite3.Error)


def worker_init():
    K.reset_registries()


def self_validate():
    """The shim counts and faults statements as planned and a forked kill is observed - validated with harness-owned
    SQL (not with library calls, whose behaviour is the thing under test); the template store is clean."""
    import os
    tb = F.template_bytes()
    with F.scratch_dir() as d:
        p = os.path.join(d, "v.db")
        F.write_db(p, tb)
        img0, problems = F.image(p)
        if problems or len(img0["adsorbates"]) < 100:
            raise HarnessError(f"template store is not clean: {problems}")

        def work():
            conn = pgsql.sqlite3.connect(p)
            try:
                cur = conn.cursor()
                cur.execute("PRAGMA foreign_keys = ON")
                cur.execute("INSERT INTO materials (name) VALUES ('sv-0')")
                cur.execute("INSERT INTO materials (name) VALUES ('sv-1')")
                conn.commit()
            finally:
                conn.close()

        def names():
            return [r[0] for r in F.image(p)[0]["materials"]]

        with F.installed() as plan:
            work()
        if (plan.n, plan.commits, plan.connections) != (3, 1, 1) or pgsql.sqlite3 is not sqlite3 or names() != ["sv-0", "sv-1"]:
            raise HarnessError(f"shim self-validation: counted {plan.n} statements, {plan.commits} commits")
        for mode, k, want in (("exit_before", 2, []), ("exit_after", 2, []), ("exit_before_commit", 0, []),
                              ("exit_after_commit", 0, ["sv-0", "sv-1"])):
            F.write_db(p, tb)
            code = F.run_killed(work, mode, k)
            if code != F.EXIT_PLANNED or names() != want:
                raise HarnessError(f"kill self-validation {mode}@{k}: exit code {code}, materials {names()}")
        for kind in F.RAISE_KINDS:
            F.write_db(p, tb)
            with F.installed(kind, 2) as plan:
                try:
                    work()
                    raise HarnessError("raise self-validation: no exception")
                except F.RAISE_KINDS[kind]:
                    pass
            if not plan.fired or plan.n != 3 or names() != []:
                raise HarnessError(f"raise self-validation {kind}: {plan.n} statements, materials {names()}")
    K.reset_registries()


# ---------------------------------------------------------------------------------------------------------------------
# strategies (constructive)
_num = st.one_of(st.integers(0, 999), st.integers(1, 10 ** 9).map(lambda i: i / 1e6))
_txt = st.sampled_from(["a", "TB", "x y", "é-1", "12a", "MOF", "powder"])
_val = st.one_of(_num, _txt)

MAT_KEYS = ["density", "molar_mass", "comment", "batch", "form", "poresize", "k0", "k1", "k2"]
ADS_KEYS = ["formula", "molar_mass", "family", "t_critical", "c0", "c1"]  # c0/c1 are not shipped property types
META_KEYS = ["user", "comment", "lab", "num", "flag", "machine"]


@st.composite
def _props(draw, keys, max_size, values=_val):
    # the size is drawn first and 0 is not the first choice: hypothesis favours the first element, and an item
    # without properties makes a short operation
    n = draw(st.sampled_from([k for k in (2, 1, 3, 0, 4, 5) if k <= max_size]))
    return draw(st.dictionaries(st.sampled_from(keys), values, min_size=n, max_size=n))


def _ads_props():
    val = st.one_of(_val, st.lists(_txt, min_size=2, max_size=3, unique=True))
    return st.builds(
        lambda p, alias: dict(p, **({"alias": alias} if alias else {})),
        _props(ADS_KEYS, 3, val), st.lists(st.sampled_from(["al-0", "al-1", "al-2"]), max_size=2, unique=True))


def _type_row(prefix):
    return st.builds(lambda i, u, dsc: {"type": f"{prefix}{i}", "unit": u, "description": dsc},
                     st.integers(0, 2), st.one_of(st.none(), _txt), st.one_of(st.none(), _txt))


@st.composite
def _iso(draw, index, n_mat, n_ads):
    """An isotherm descriptor; distinct `index` => distinct temperature => distinct iso_id."""
    kind = draw(st.sampled_from(["point", "model", "base"]))
    d = {"kind": kind, "T": 70.0 + 10 * index + draw(st.integers(0, 9)),
         "meta": draw(_props(META_KEYS, 3, st.one_of(_val, st.booleans())))}
    if n_mat is not None:
        d["mat"] = draw(st.integers(0, n_mat - 1))
        d["ads"] = (["prior", draw(st.integers(0, n_ads - 1))] if n_ads and draw(st.booleans())
                    else ["stock", draw(st.sampled_from(STOCK_ADS))])
    if kind == "point":
        n = draw(st.integers(1, 4))
        incs = draw(st.lists(st.integers(1, 10 ** 6).map(lambda i: i / 1e4), min_size=2 * n, max_size=2 * n))
        p, l, ap, al = [], [], 0.0, 0.0
        for i in range(n):
            ap = round(ap + incs[2 * i], 6)
            al = round(al + incs[2 * i + 1], 6)
            p.append(ap)
            l.append(al)
        d["pressure"], d["loading"] = p, l
        if draw(st.booleans()):
            d["extra"] = {"enthalpy": [round(5.0 + i, 3) for i in range(n)]}
    elif kind == "model":
        d["model"] = draw(st.sampled_from([
            {"name": "Henry", "parameters": {"K": 2.5}},
            {"name": "Langmuir", "parameters": {"K": 2.0, "n_m": 3.5}},
            {"name": "DSLangmuir", "parameters": {"K1": 2.0, "n_m1": 3.5, "K2": 0.5, "n_m2": 1.5}},
        ]))
    return d


@st.composite
def _prior(draw):
    n_mat = draw(st.sampled_from([2, 1, 3, 0]))
    n_ads = draw(st.sampled_from([1, 0, 2]))
    prior = {
        "materials": [{"name": f"m-{i}", "props": draw(_props(MAT_KEYS, 4))} for i in range(n_mat)],
        "adsorbates": [{"name": f"gas-{i}", "props": draw(_ads_props())} for i in range(n_ads)],
        "isotherms": [],
        "types": {t: draw(st.lists(_type_row(f"x{t[0]}-"), max_size=2, unique_by=lambda r: r["type"]))
                  for t in ("material", "adsorbate", "isotherm")},
    }
    if n_mat:
        n_iso = draw(st.sampled_from([1, 2, 0, 3]))
        prior["isotherms"] = [draw(_iso(i, n_mat, n_ads)) for i in range(n_iso)]
    return prior


def _referenced(prior):
    mats = {i["mat"] for i in prior["isotherms"]}
    ads = {i["ads"][1] for i in prior["isotherms"] if i["ads"][0] == "prior"}
    return mats, ads


@st.composite
def _iso_upload_op(draw, prior):
    n_mat, n_ads = len(prior["materials"]), len(prior["adsorbates"])
    iso = draw(_iso(9, None, None))
    mat_choices = ["new"] + (["prior"] if n_mat else [])
    ads_choices = ["new", "stock"] + (["prior"] if n_ads else [])
    mc, ac = draw(st.sampled_from(mat_choices)), draw(st.sampled_from(ads_choices))
    if mc == "new":
        iso["material"] = ["new", {"name": "n-mat", "props": draw(_props(MAT_KEYS, 4))}]
    else:
        iso["material"] = ["prior", draw(st.integers(0, n_mat - 1))]
    if ac == "new":
        iso["adsorbate"] = ["new", {"name": "n-gas", "props": draw(_ads_props())}]
    elif ac == "prior":
        iso["adsorbate"] = ["prior", draw(st.integers(0, n_ads - 1))]
    else:
        iso["adsorbate"] = ["stock", draw(st.sampled_from(STOCK_ADS))]
    return {"name": "iso_upload", "iso": iso, "ai_mat": draw(st.booleans()), "ai_ads": draw(st.booleans()),
            "via_method": draw(st.booleans())}


@st.composite
def strat_scenario(draw):
    prior = draw(_prior())
    n_mat, n_ads, n_iso = len(prior["materials"]), len(prior["adsorbates"]), len(prior["isotherms"])
    ref_mats, ref_ads = _referenced(prior)
    free_mats = [i for i in range(n_mat) if i not in ref_mats]
    free_ads = [i for i in range(n_ads) if i not in ref_ads]
    ops = ["iso_upload", "iso_upload", "iso_upload", "mat_new", "ads_new", "type_new", "type_overwrite"]
    if n_mat:
        ops += ["mat_overwrite", "mat_overwrite"]
    if free_mats:
        ops.append("mat_delete")
    if n_ads:
        ops += ["ads_overwrite", "ads_overwrite"]
    if free_ads:
        ops.append("ads_delete")
    if n_iso:
        ops += ["iso_delete", "iso_delete"]
    if any(prior["types"].values()):
        ops.append("type_delete")
    name = draw(st.sampled_from(ops))
    if name == "mat_new":
        op = {"name": name, "item": {"name": "n-mat", "props": draw(_props(MAT_KEYS, 5))}, "ai": draw(st.booleans())}
    elif name == "mat_overwrite":
        op = {"name": name, "target": draw(st.integers(0, n_mat - 1)), "props": draw(_props(MAT_KEYS, 5)),
              "ai": draw(st.booleans())}
    elif name == "mat_delete":
        op = {"name": name, "target": draw(st.sampled_from(free_mats)), "by_name": draw(st.booleans())}
    elif name == "ads_new":
        op = {"name": name, "item": {"name": "n-gas", "props": draw(_ads_props())}, "ai": draw(st.booleans())}
    elif name == "ads_overwrite":
        op = {"name": name, "target": draw(st.integers(0, n_ads - 1)), "props": draw(_ads_props()),
              "ai": draw(st.booleans())}
    elif name == "ads_delete":
        op = {"name": name, "target": draw(st.sampled_from(free_ads)), "by_name": draw(st.booleans())}
    elif name == "type_new":
        table = draw(st.sampled_from(sorted(TYPE_API)))
        op = {"name": name, "table": table, "row": dict(draw(_type_row("nt-")))}
    elif name == "type_overwrite":
        table = draw(st.sampled_from(sorted(TYPE_API)))
        rows = prior["types"][table]
        if rows and draw(st.booleans()):
            target = draw(st.sampled_from([r["type"] for r in rows]))
        else:
            target = {"material": None, "adsorbate": "formula", "isotherm": "pointisotherm"}[table]
        if target is None:  # empty material type table: overwrite needs an existing row -> upload instead
            op = {"name": "type_new", "table": table, "row": dict(draw(_type_row("nt-")))}
        else:
            op = {"name": name, "table": table, "row": dict(draw(_type_row("nt-")), type=target)}
    elif name == "type_delete":
        table = draw(st.sampled_from([t for t in sorted(TYPE_API) if prior["types"][t]]))
        op = {"name": name, "table": table, "type": draw(st.sampled_from([r["type"] for r in prior["types"][table]]))}
    elif name == "iso_upload":
        op = draw(_iso_upload_op(prior))
    else:
        op = {"name": "iso_delete", "target": draw(st.integers(0, n_iso - 1)), "by_id": draw(st.booleans())}
    return {"prior": prior, "fresh_registry": draw(st.booleans()), "op": op}


# ---------------------------------------------------------------------------------------------------------------------
# descriptor -> objects
def _material(d):
    return Material(d["name"], **{k: v for k, v in d["props"].items()})


def _adsorbate(d):
    props = {k: (list(v) if isinstance(v, list) else v) for k, v in d["props"].items()}
    return Adsorbate(d["name"], **props)


def _isotherm(d, material, adsorbate):
    """`adsorbate` is an Adsorbate; the constructors are given its name (they cannot take the object: `None in
    [material, adsorbate, ...]` calls Adsorbate.__eq__(None)), then the attribute is set through its public setter, so
    that an adsorbate unknown to the registry keeps its properties."""
    kw = dict(UNITS, material=material, adsorbate=adsorbate.name, temperature=d["T"])
    kw.update(d.get("units") or {})
    kw.update(d["meta"])
    if d["kind"] == "base":
        iso = BaseIsotherm(**kw)
    elif d["kind"] == "point":
        other = d.get("extra") or {}
        import pandas as pd
        frame = pd.DataFrame(dict({"pressure": d["pressure"], "loading": d["loading"]}, **other))
        iso = pygaps.PointIsotherm(isotherm_data=frame, pressure_key="pressure", loading_key="loading",
                                   branch="ads", **kw)
    else:
        model = model_from_dict(dict(d["model"], rmse=0.01, pressure_range=[0.1, 2.0], loading_range=[0.2, 3.0]))
        iso = pygaps.ModelIsotherm(model=model, **kw)
    if iso.adsorbate is not adsorbate:
        iso.adsorbate = adsorbate
    return iso


def _stock(name):
    return K.get_adsorbate(name)


class Env:
    """Prior contents stored in `path`, the registry state at the start of the operation, and the images."""

    def __init__(self, desc, path):
        self.desc = desc
        self.path = path
        prior = desc["prior"]
        K.reset_registries()
        F.write_db(path, F.template_bytes())
        for table, rows in prior["types"].items():
            for row in rows:
                TYPE_API[table][0](dict(row), db_path=path, verbose=False)
        for m in prior["materials"]:
            pgsql.material_to_db(_material(m), db_path=path, verbose=False)
        for a in prior["adsorbates"]:
            pgsql.adsorbate_to_db(_adsorbate(a), db_path=path, verbose=False)
        self.iso_ids = []
        for i in prior["isotherms"]:
            iso = _isotherm(i, _material(prior["materials"][i["mat"]]), self.ads_ref(i["ads"]))
            pgsql.isotherm_to_db(iso, db_path=path, autoinsert_material=False, autoinsert_adsorbate=False,
                                 verbose=False)
            self.iso_ids.append(iso.iso_id)
        if desc["fresh_registry"]:
            K.reset_registries()
        self.reg0 = (list(MATERIAL_LIST), list(ADSORBATE_LIST))
        self.pre_bytes = F.read_db(path)
        self.pre_img, self.pre_problems = F.image(path)
        self.ads_read = set()

    def ads_ref(self, ref):
        if ref[0] == "stock":
            return _stock(ref[1])
        if ref[0] == "prior":
            return _adsorbate(self.desc["prior"]["adsorbates"][ref[1]])
        return _adsorbate(ref[1])

    def mat_ref(self, ref):
        if ref[0] == "prior":
            return _material(self.desc["prior"]["materials"][ref[1]])
        return _material(ref[1])

    def restore_start(self, content=None):
        K.reset_registries()
        MATERIAL_LIST[:] = self.reg0[0]
        ADSORBATE_LIST[:] = self.reg0[1]
        F.write_db(self.path, self.pre_bytes if content is None else content)

    def types_in(self, table):
        """Type names stored in the file (called while it holds the pre-image; independent connection)."""
        tname = "isotherm_type" if table == "isotherm" else table + "_properties_type"
        return set(F.column(self.path, f'SELECT type FROM "{tname}"'))


def make_op(env):
    """-> (variant name, factory of zero-argument callables performing the operation with freshly built objects,
    touched tables, targets excluded from the 'stored before stays intact' clause)."""
    desc, path = env.desc, env.path
    op = desc["op"]
    name = op["name"]
    prior = desc["prior"]
    fresh = desc["fresh_registry"]
    targets = {"materials": set(), "adsorbates": set(), "isotherms": set(), "types": set()}

    if name in ("mat_new", "mat_overwrite"):
        if name == "mat_new":
            item = op["item"]
        else:
            item = {"name": prior["materials"][op["target"]]["name"], "props": op["props"]}
            targets["materials"].add(item["name"])
        novel = set(item["props"]) - env.types_in("material")
        ai = bool(op["ai"] or novel)
        variant = f"{name}:{'autotypes' if novel else 'knowntypes'}"

        def factory():
            obj = _material(item)
            return lambda: pgsql.material_to_db(obj, db_path=path, overwrite=(name == "mat_overwrite"),
                                                autoinsert_properties=ai, verbose=False)
        return variant, factory, {"mat"}, targets

    if name in ("ads_new", "ads_overwrite"):
        if name == "ads_new":
            item = op["item"]
        else:
            item = {"name": prior["adsorbates"][op["target"]]["name"], "props": op["props"]}
            targets["adsorbates"].add(item["name"])
        novel = set(item["props"]) - env.types_in("adsorbate")
        ai = bool(op["ai"] or novel)
        variant = f"{name}:{'autotypes' if novel else 'knowntypes'}"

        def factory():
            obj = _adsorbate(item)
            return lambda: pgsql.adsorbate_to_db(obj, db_path=path, overwrite=(name == "ads_overwrite"),
                                                 autoinsert_properties=ai, verbose=False)
        return variant, factory, {"ads"}, targets

    if name == "mat_delete":
        item = prior["materials"][op["target"]]
        targets["materials"].add(item["name"])

        def factory():
            arg = item["name"] if op["by_name"] else _material(item)
            return lambda: pgsql.material_delete_db(arg, db_path=path, verbose=False)
        return name, factory, {"mat"}, targets

    if name == "ads_delete":
        item = prior["adsorbates"][op["target"]]
        targets["adsorbates"].add(item["name"])

        def factory():
            arg = item["name"] if op["by_name"] else _adsorbate(item)
            return lambda: pgsql.adsorbate_delete_db(arg, db_path=path, verbose=False)
        return name, factory, {"ads"}, targets

    if name in ("type_new", "type_overwrite"):
        table, row = op["table"], op["row"]
        if table == "isotherm":
            row = {k: v for k, v in row.items() if k != "unit"}
        targets["types"].add((table, row["type"]))

        def factory():
            return lambda: TYPE_API[table][0](dict(row), db_path=path, overwrite=(name == "type_overwrite"),
                                              verbose=False)
        return f"{name}:{table}", factory, {"types"}, targets

    if name == "type_delete":
        table = op["table"]
        targets["types"].add((table, op["type"]))

        def factory():
            return lambda: TYPE_API[table][1](op["type"], db_path=path, verbose=False)
        return f"{name}:{table}", factory, {"types"}, targets

    if name == "iso_upload":
        d = op["iso"]
        mref, aref = d["material"], d["adsorbate"]
        # auto-insert flags: a new item must be auto-inserted; an item that is stored but unknown to the registries of a
        # fresh process must not be (the library decides from the registries - a C08 matter, outside this property)
        ai_mat = True if mref[0] == "new" else (False if fresh else op["ai_mat"])
        ai_ads = True if aref[0] == "new" else (op["ai_ads"] if aref[0] == "stock" or not fresh else False)
        if "force_ai_mat" in op:
            ai_mat = op["force_ai_mat"]
        if "force_ai_ads" in op:
            ai_ads = op["force_ai_ads"]
        variant = f"iso_upload:{d['kind']}:mat_{mref[0]}:ads_{aref[0]}"

        def factory():
            iso = _isotherm(d, env.mat_ref(mref), env.ads_ref(aref))
            if op.get("via_method"):
                return lambda: iso.to_db(db_path=path, autoinsert_material=ai_mat, autoinsert_adsorbate=ai_ads,
                                         verbose=False)
            return lambda: pgsql.isotherm_to_db(iso, db_path=path, autoinsert_material=ai_mat,
                                                autoinsert_adsorbate=ai_ads, verbose=False)
        touched = {"iso"} | ({"mat"} if mref[0] == "new" else set()) | ({"ads"} if aref[0] == "new" else set())
        return variant, factory, touched, targets

    if name == "iso_delete":
        i = prior["isotherms"][op["target"]]
        iso_id = env.iso_ids[op["target"]]
        targets["isotherms"].add(float(i["T"]))

        def factory():
            arg = iso_id if op["by_id"] else _isotherm(i, _material(prior["materials"][i["mat"]]), env.ads_ref(i["ads"]))
            return lambda: pgsql.isotherm_delete_db(arg, db_path=path, verbose=False)
        return f"iso_delete:{i['kind']}", factory, {"iso"}, targets

    raise HarnessError(f"unknown operation {name}")


# ---------------------------------------------------------------------------------------------------------------------
# retrieval through the library's own readers
def _freeze(x):
    return canon(x)


def summary(path, with_adsorbates):
    """What materials/adsorbates/isotherms/types_from_db return, as comparable plain data. The registries are put
    back afterwards (reading must not influence the repeated operation)."""
    reg = (list(MATERIAL_LIST), list(ADSORBATE_LIST))
    try:
        out = {"materials": {}, "adsorbates": {}, "isotherms": {}, "types": {}}
        for m in pgsql.materials_from_db(db_path=path, verbose=False):
            out["materials"][m.name] = _freeze(m.properties)
        if with_adsorbates:
            for a in pgsql.adsorbates_from_db(db_path=path, verbose=False):
                out["adsorbates"][a.name] = _freeze([sorted(a.alias), a.properties])
        for iso in pgsql.isotherms_from_db(db_path=path, verbose=False):
            d = iso.to_dict()
            # (the material as the reader hands it over with the isotherm: name AND properties - resolved by the library
            # through its in-memory list, so what a failed call leaves in that list shows here)
            if isinstance(iso, pygaps.PointIsotherm):
                data = {c: iso.data_raw[c].tolist() for c in iso.data_raw.columns}
            elif isinstance(iso, pygaps.ModelIsotherm):
                data = iso.model.to_dict()
            else:
                data = None
            # keyed by temperature (distinct by construction); the id of a retrieved isotherm is not the stored id
            out["isotherms"][float(d["temperature"])] = _freeze([type(iso).__name__, d, data])
        for table, api in TYPE_API.items():
            for row in api[2](db_path=path, verbose=False):
                out["types"][(table, row["type"])] = _freeze(row)
        return out
    finally:
        MATERIAL_LIST[:] = reg[0]
        ADSORBATE_LIST[:] = reg[1]


def check_retrievable(pre_sum, now_sum, targets, where):
    for cat, items in pre_sum.items():
        if now_sum[cat] is None:  # reader already called on identical file content in this scenario
            continue
        for key, val in items.items():
            if key in targets[cat]:
                continue
            got = now_sum[cat].get(key)
            if got != val:
                raise Violation(
                    f"{where}: {cat[:-1]} {key!r} stored before the failed call is "
                    f"{'no longer returned' if got is None else 'returned changed'} by the *_from_db reader "
                    f"(before {val[:200]}, after {str(got)[:200]})", tag="stored_before_lost")


# ---------------------------------------------------------------------------------------------------------------------
_LEDGER = None


def _ledger():
    global _LEDGER
    if _LEDGER is None:
        from pbt.ledger import Ledger
        _LEDGER = Ledger()
    return _LEDGER


def _known(ctx, desc, viol):
    """Known-finding bookkeeping inside a scenario (a scenario holds hundreds of fault runs; the search must go on
    behind a known one). Never applied in replay mode, so a committed case still reproduces."""
    if ctx.tier == "replay":
        return False
    fid = _ledger().match(ctx.prop, ctx.check, desc, viol)
    if fid:
        ctx.known[fid] += 1
        return True
    return False


def _call(fn):
    try:
        fn()
        return "ok", None
    except LIB_ERRORS as e:
        return "refused", e


def _content_class(desc):
    p = desc["prior"]
    return "m%da%di%d%s" % (min(len(p["materials"]), 2), min(len(p["adsorbates"]), 2), min(len(p["isotherms"]), 2),
                            "F" if desc["fresh_registry"] else "S")


def _stmt(log, k):
    return " ".join(log[k].split()[:3]) if k is not None and k < len(log) else "commit"


def check_fault_enumeration(desc, ctx):
    import os
    only = desc.get("only")  # [kind, k]: a single fault run (committed known-finding cases)
    with F.scratch_dir() as d:
        path = os.path.join(d, "store.db")
        # ---- fault-free part: prior contents, dry run, reference second runs (all through the real/pass-through module)
        try:
            env = Env(desc, path)
            variant, factory, touched, targets = make_op(env)
            if env.pre_problems:
                raise Inconclusive()
            env.restore_start()
            call = factory()
            with F.installed() as plan:
                call()
            N, log = plan.n, list(plan.log)
            n_commits = plan.commit_calls
            post_bytes = F.read_db(path)
            post_img, post_problems = F.image(path, [env.pre_img])
            if post_problems:
                raise Inconclusive()
            # fault-free second call in the same process (reference for 'the effect is already complete')
            refs = [env.pre_img, post_img]
            ref_same = _call(call)[0], F.image(path, refs)[0]
            env.restore_start(post_bytes)
            ref_fresh = _call(factory())[0], F.image(path, refs)[0]
        except LIB_ERRORS:
            ctx.label("fault_free_run_refused")
            raise Inconclusive()
        with_ads = "ads" in touched
        env.restore_start()
        pre_sum = summary(path, with_ads)
        cclass = _content_class(desc)
        ctx.label("scenario:" + variant.split(":")[0])
        ctx.label("N=%02d-%02d" % (N // 5 * 5, N // 5 * 5 + 4))
        if post_img == env.pre_img:
            ctx.label("post_equals_pre")
        if n_commits != 1 or plan.connections != 1:
            ctx.label("not_one_transaction")

        runs = []
        for kind in F.RAISE_KINDS:
            runs += [(kind, k) for k in range(N)]
        for kind in F.KILL_STMT_KINDS:
            runs += [(kind, k) for k in range(N)]
        runs += [(kind, j) for kind in F.KILL_COMMIT_KINDS + (F.RAISE_COMMIT_KIND,) for j in range(n_commits)]  # one commit unless the code changed
        if only:
            runs = [(only[0], only[1])]

        first_known = None
        for kind, k in runs:
            stmt_kind = kind not in F.KILL_COMMIT_KINDS and kind != F.RAISE_COMMIT_KIND
            where = (f"{variant} [{cclass}] fault {kind}" + (f" at statement {k}/{N} ({_stmt(log, k)})" if stmt_kind
                                                             else (f" (commit {k} of {n_commits})" if n_commits != 1 else "")))
            try:
                def atomic_clause_held(kind=kind, k=k, stmt_kind=stmt_kind):
                    # counted when the all-or-nothing / pragma / reader clauses held, whatever the repeat clause gives
                    ctx.label(f"runs:{variant.split(':')[0]}:{kind}")
                    if stmt_kind and 0 < k < N:
                        ctx.nt([variant, cclass, k, kind], {"variant": variant, "content": cclass, "k": k, "kind": kind,
                                                            "N": N, "statement": _stmt(log, k)})
                _one_fault(env, factory, kind, k, N, post_img, ref_same, ref_fresh, pre_sum, targets, with_ads, where,
                           ctx, atomic_clause_held)
            except Violation as v:
                v.detail = dict(v.detail or {}, kind=kind, k=k, N=N, variant=variant,
                                statement=_stmt(log, k) if stmt_kind else "commit")
                if _known(ctx, desc, v):
                    continue
                if ctx.tier == "replay" and not only:
                    # report an unknown violation in preference to a known one
                    if _ledger().match(ctx.prop, ctx.check, desc, v):
                        first_known = first_known or v
                        continue
                raise
            ctx.label(f"repeat_held:{variant.split(':')[0]}")
        if first_known is not None:
            raise first_known


def _one_fault(env, factory, kind, k, N, post_img, ref_same, ref_fresh, pre_sum, targets, with_ads, where, ctx,
               atomic_clause_held):
    path = env.path
    env.restore_start()
    call = factory()
    raised = kind in F.RAISE_KINDS or kind == F.RAISE_COMMIT_KIND
    if raised:
        with F.installed(kind, k) as plan:
            outcome, err = _call(call)
        if not plan.fired:
            raise HarnessError(f"{where}: the planned statement was never reached (non-deterministic statement count)")
    else:
        code = F.run_killed(call, kind, k)
        if code != F.EXIT_PLANNED:
            raise HarnessError(f"{where}: forked child ended with {code} instead of dying at the planned instant")
        outcome = "killed"
    refs = [env.pre_img, post_img, ref_same[1], ref_fresh[1]]
    img, problems = F.image(path, refs)
    if img == env.pre_img:
        state = "pre"
    elif img == post_img:
        state = "post"
    else:
        raise Violation(
            f"{where}: call {outcome}; the file holds neither the pre-image nor the post-image: "
            f"vs pre-image {F.diff_images(env.pre_img, img)[:700]} || vs post-image {F.diff_images(post_img, img)[:500]}",
            tag="not_atomic_" + ("raised" if raised else "killed"))
    if problems:
        raise Violation(f"{where}: {problems}", tag="integrity")
    ctx.label(f"state_{state}:{'raised' if raised else kind}" + (":call_returned" if outcome == "ok" else ""))
    # everything stored before is still returned by the readers (in the process state the failed call left). The 176
    # shipped adsorbates dominate the cost of adsorbates_from_db, so that reader is called once per distinct file
    # content of the scenario (rows identical including ids) and always when the content is new.
    ads_now = with_ads and id(img) not in env.ads_read
    if ads_now:
        env.ads_read.add(id(img))
    now = summary(path, ads_now)
    if with_ads and not ads_now:
        now["adsorbates"] = pre_sum["adsorbates"] if img is env.pre_img else None
    check_retrievable(pre_sum, now, targets, where)
    atomic_clause_held()
    # the same operation can be repeated
    if raised:
        again, err2 = _call(call)  # same process, same objects, registries as the failed call left them
        ref = ref_same
    else:
        env.restore_start(F.read_db(path))  # the registries of the process that died are gone
        again, err2 = _call(factory())
        ref = ref_fresh
    img2 = F.image(path, refs)[0]
    if state == "pre":
        if again != "ok":
            leak = _registry_leak(env, img)
            raise Violation(
                f"{where}: the file was left at the pre-image, but repeating the same call "
                f"{'in the same process ' if raised else 'in a fresh state '}is refused: {type(err2).__name__}: "
                f"{str(err2)[:300]}" + (f" [registries still hold {leak} of the rolled-back upload]" if leak else ""),
                tag="repeat_refused_registry_leak" if leak else "repeat_refused", detail={"leak": leak})
        if img2 != post_img:
            raise Violation(f"{where}: repeating the call succeeded but the file differs from the fault-free "
                            f"post-image: {F.diff_images(post_img, img2)[:700]}", tag="repeat_wrong_image")
    else:
        if (again, img2) != ref:
            raise Violation(
                f"{where}: the file was left at the post-image; repeating the call gives {again} / "
                f"{F.diff_images(ref[1], img2)[:500] or 'same image'}, a fault-free second call gives {ref[0]}",
                tag="repeat_differs_after_complete")


def _registry_leak(env, img):
    """Names present in the in-memory registries but neither in the start registries nor in the file."""
    leak = []
    for m in MATERIAL_LIST:
        if not any(m is x for x in env.reg0[0]) and (m.name,) not in img["materials"]:
            leak.append("material " + m.name)
    for a in ADSORBATE_LIST:
        if not any(a is x for x in env.reg0[1]) and (a.name,) not in img["adsorbates"]:
            leak.append("adsorbate " + a.name)
    return leak


# ---------------------------------------------------------------------------------------------------------------------
# operations that fail part-way by themselves (no injected fault)
_BAD = {"null": None, "list": [1, 2], "dict": {"a": 1}}


def _pairs(keys):
    """Ordered property list with exactly one offending entry (marked by the value '<BAD>') at a drawn position."""
    return st.builds(
        lambda good, pos, badkey: (lambda items: items[:pos % (len(items) + 1)] + [[badkey, "<BAD>"]] +
                                   items[pos % (len(items) + 1):])([[k, v] for k, v in good.items()]),
        st.dictionaries(st.sampled_from(keys), _val, max_size=4), st.integers(0, 4), st.sampled_from(["zz0", "zz1"]))


@st.composite
def strat_natural(draw):
    prior = draw(_prior())
    n_mat, n_ads, n_iso = len(prior["materials"]), len(prior["adsorbates"]), len(prior["isotherms"])
    ref_mats, ref_ads = _referenced(prior)
    ops = ["mat_bad_value", "mat_unknown_type", "ads_bad_value", "ads_unknown_type", "iso_bad_meta", "iso_bad_meta",
           "iso_missing_ref", "iso_relative_no_unit", "mat_bad_value", "ads_bad_value"]
    if ref_mats:
        ops += ["mat_delete_referenced"] * 2
    if ref_ads:
        ops += ["ads_delete_referenced"] * 2
    if n_iso:
        ops += ["stock_ads_delete_referenced", "type_delete_referenced"]
    if any(m["props"] for m in prior["materials"]):
        ops.append("type_delete_referenced")
    name = draw(st.sampled_from(ops))
    op = {"name": name}
    if name in ("mat_bad_value", "mat_unknown_type", "ads_bad_value", "ads_unknown_type"):
        kind = name[:3]
        n_prior = n_mat if kind == "mat" else n_ads
        op["overwrite"] = bool(n_prior) and draw(st.booleans())
        if op["overwrite"]:
            op["target"] = draw(st.integers(0, n_prior - 1))
        op["pairs"] = draw(_pairs(MAT_KEYS if kind == "mat" else ADS_KEYS[:4]))
        if name.endswith("bad_value"):
            op["bad"] = draw(st.sampled_from(["null", "null", "list", "dict"] if kind == "mat" else ["null", "dict"]))
    elif name in ("iso_bad_meta", "iso_missing_ref", "iso_relative_no_unit"):
        up = draw(_iso_upload_op(prior))
        op.update({k: v for k, v in up.items() if k != "name"})
        if name == "iso_bad_meta":
            op["pairs"] = draw(_pairs(META_KEYS))
            op["bad"] = draw(st.sampled_from(["null", "null", "list", "dict"]))
        elif name == "iso_missing_ref":
            op["missing"] = draw(st.sampled_from(["material", "adsorbate"]))
    elif name == "mat_delete_referenced":
        op["target"] = draw(st.sampled_from(sorted(ref_mats)))
        op["by_name"] = draw(st.booleans())
    elif name == "ads_delete_referenced":
        op["target"] = draw(st.sampled_from(sorted(ref_ads)))
        op["by_name"] = draw(st.booleans())
    elif name == "stock_ads_delete_referenced":
        stock = sorted({i["ads"][1] for i in prior["isotherms"] if i["ads"][0] == "stock"})
        if not stock:
            op = {"name": "mat_delete_referenced", "target": sorted(ref_mats)[0], "by_name": True}
        else:
            op["adsorbate"] = draw(st.sampled_from(stock))
    elif name == "type_delete_referenced":
        cands = []
        for m in prior["materials"]:
            cands += [["material", k] for k in m["props"]]
        for i in prior["isotherms"]:
            cands.append(["isotherm", {"base": "isotherm", "point": "pointisotherm", "model": "modelisotherm"}[i["kind"]]])
        cands.append(["adsorbate", "alias"])
        op["table"], op["type"] = draw(st.sampled_from(cands))
    return {"prior": prior, "fresh_registry": draw(st.booleans()), "op": op}


def _fill(pairs, bad):
    return {k: (_BAD[bad] if v == "<BAD>" else v) for k, v in pairs}


def make_natural(env):
    desc, path = env.desc, env.path
    op, prior = desc["op"], desc["prior"]
    name = op["name"]
    if name in ("mat_bad_value", "mat_unknown_type", "ads_bad_value", "ads_unknown_type"):
        is_mat = name.startswith("mat")
        if name.endswith("unknown_type"):
            props = {k: ("v" if v == "<BAD>" else v) for k, v in op["pairs"]}  # zz0/zz1 is not a stored type
            ai = False
            # the other keys must be known types, otherwise they are the (earlier) failing statement - equally fine
        else:
            props = _fill(op["pairs"], op["bad"])
            ai = True
        if op["overwrite"]:
            nm = (prior["materials"] if is_mat else prior["adsorbates"])[op["target"]]["name"]
        else:
            nm = "n-mat" if is_mat else "n-gas"
        if is_mat:
            obj = Material(nm, **props)
            call = lambda: pgsql.material_to_db(obj, db_path=path, overwrite=op["overwrite"], autoinsert_properties=ai,  # noqa
                                                verbose=False)
        else:
            obj = Adsorbate(nm, **props)
            call = lambda: pgsql.adsorbate_to_db(obj, db_path=path, overwrite=op["overwrite"], autoinsert_properties=ai,  # noqa
                                                 verbose=False)
        return f"{name}:{'overwrite' if op['overwrite'] else 'new'}:{op.get('bad', 'fk')}", call
    if name in ("iso_bad_meta", "iso_missing_ref", "iso_relative_no_unit"):
        d = dict(op["iso"])
        mref, aref = d["material"], d["adsorbate"]
        fresh = desc["fresh_registry"]
        ai_mat = True if mref[0] == "new" else (False if fresh else op["ai_mat"])
        ai_ads = True if aref[0] == "new" else (op["ai_ads"] if aref[0] == "stock" or not fresh else False)
        if name == "iso_bad_meta":
            d["meta"] = _fill(op["pairs"], op["bad"])
            tail = op["bad"]
        elif name == "iso_relative_no_unit":
            d["units"] = {"pressure_mode": "relative", "pressure_unit": None}
            tail = "null_unit"
        else:
            # the referenced material / adsorbate is neither stored nor auto-inserted
            if op["missing"] == "material":
                d["material"] = mref = ["new", {"name": "n-mat", "props": {}}]
                ai_mat = False
            else:
                d["adsorbate"] = aref = ["new", {"name": "n-gas", "props": {}}]
                ai_ads = False
            tail = "no_" + op["missing"]
        iso = _isotherm(d, env.mat_ref(mref), env.ads_ref(aref))
        call = lambda: pgsql.isotherm_to_db(iso, db_path=path, autoinsert_material=ai_mat, autoinsert_adsorbate=ai_ads,  # noqa
                                            verbose=False)
        return f"{name}:{d['kind']}:mat_{mref[0]}:ads_{aref[0]}:{tail}", call
    if name == "mat_delete_referenced":
        item = prior["materials"][op["target"]]
        arg = item["name"] if op["by_name"] else _material(item)
        return name, lambda: pgsql.material_delete_db(arg, db_path=path, verbose=False)
    if name == "ads_delete_referenced":
        item = prior["adsorbates"][op["target"]]
        arg = item["name"] if op["by_name"] else _adsorbate(item)
        return name, lambda: pgsql.adsorbate_delete_db(arg, db_path=path, verbose=False)
    if name == "stock_ads_delete_referenced":
        return name, lambda: pgsql.adsorbate_delete_db(op["adsorbate"], db_path=path, verbose=False)
    if name == "type_delete_referenced":
        return f"{name}:{op['table']}", lambda: TYPE_API[op["table"]][1](op["type"], db_path=path, verbose=False)
    raise HarnessError(f"unknown natural operation {name}")


def check_natural_rejection(desc, ctx):
    """An operation that is rejected by the store itself at some statement must leave exactly the pre-image."""
    import os
    with F.scratch_dir() as d:
        path = os.path.join(d, "store.db")
        try:
            env = Env(desc, path)
        except LIB_ERRORS:
            ctx.label("prior_refused")
            raise Inconclusive()
        if env.pre_problems:
            raise Inconclusive()
        variant, call = make_natural(env)
        o = desc["op"]
        with_ads = (o["name"].startswith(("ads", "stock_ads")) or o.get("table") == "adsorbate"
                    or (o.get("iso") or {}).get("adsorbate", [None])[0] == "new" or o.get("missing") == "adsorbate")
        pre_sum = summary(path, with_ads)
        env.restore_start()
        with F.installed() as plan:
            outcome, err = _call(call)
        log = list(plan.log)
        img, problems = F.image(path, [env.pre_img])
        cclass = _content_class(desc)
        where = f"{variant} [{cclass}]"
        if outcome == "ok":
            # the store accepted the item: nothing failed, the property says nothing (integrity must still hold)
            ctx.label("accepted:" + variant.split(":")[0])
            if problems:
                raise Violation(f"{where}: accepted, but {problems}", tag="integrity")
            return
        dml_before = sum(1 for sql in log[:-1] if sql.split()[0].upper() in ("INSERT", "UPDATE", "DELETE"))
        where += (f": refused with {type(err).__name__} at statement {len(log) - 1} ({_stmt(log, len(log) - 1)}) after "
                  f"{dml_before} modifying statements")
        if img != env.pre_img:
            raise Violation(f"{where}; the file differs from the pre-image: {F.diff_images(env.pre_img, img)[:800]}",
                            tag="not_atomic_natural")
        if problems:
            raise Violation(f"{where}: {problems}", tag="integrity")
        check_retrievable(pre_sum, summary(path, with_ads),
                          {"materials": set(), "adsorbates": set(), "isotherms": set(), "types": set()}, where)
        ctx.label(f"refused:{variant.split(':')[0]}:{type(err).__name__}")
        if dml_before:
            ctx.nt([variant, cclass, len(log) - 1, dml_before],
                   {"variant": variant, "content": cclass, "failing_statement": _stmt(log, len(log) - 1),
                    "modifying_statements_before": dml_before})


# ---------------------------------------------------------------------------------------------------------------------
# known findings (narrow classes; see findings/pending/C09.json)
def kf_registry_leak_after_rollback(check_name, desc, viol):
    """KF-C09-1: isotherm upload that auto-inserts its material/adsorbate, a later statement raises, the transaction is
    rolled back but MATERIAL_LIST / ADSORBATE_LIST keep the auto-inserted object, so the repeated call (same process)
    skips the auto-insert and is refused by the foreign key. The tag is only given when the leak was observed."""
    d = viol.detail or {}
    iso = desc["op"].get("iso") or {}
    return (check_name == "fault_enumeration" and viol.tag == "repeat_refused_registry_leak"
            and desc["op"]["name"] == "iso_upload"
            and "new" in (iso.get("material", [None])[0], iso.get("adsorbate", [None])[0])
            and d.get("kind") in F.RAISE_KINDS and bool(d.get("leak")))


_SWALLOW_STATEMENTS = ('SELECT mat_id FROM', 'SELECT ads_id FROM', 'DELETE FROM "material_properties"',
                       'DELETE FROM "adsorbate_properties"')


def kf_overwrite_swallows_integrity_error(check_name, desc, viol):
    """KF-C09-2: material/adsorbate overwrite wraps `_delete_by_id` (old properties) in `except IntegrityError: pass`;
    an IntegrityError raised by one of its two statements is swallowed, the new properties are added to the old ones
    and the mixture is committed."""
    d = viol.detail or {}
    return (check_name == "fault_enumeration" and viol.tag == "not_atomic_raised"
            and desc["op"]["name"] in ("mat_overwrite", "ads_overwrite") and d.get("kind") == "IntegrityError"
            and d.get("k") in (2, 3) and d.get("statement") in _SWALLOW_STATEMENTS)


# ---------------------------------------------------------------------------------------------------------------------
# ---------------------------------------------------------------------------------------------------------------------
# process death during a transaction larger than the page cache of the storage layer
def strat_large():
    return st.builds(lambda n, kind, extra, prior_iso: {"n": n, "kind": kind, "extra": extra, "prior_iso": prior_iso},
                     st.sampled_from([70000, 120000]), st.sampled_from(["exit_before_commit", "exit_last_statement"]),
                     st.booleans(), st.booleans())


def check_large_kill(desc, ctx):
    """An upload whose rows do not fit the page cache of the storage layer (sqlite spills dirty pages into the file
    before commit) is killed by os._exit in a forked child: the file must hold the pre-image for the next process,
    everything stored before stays retrievable, and the upload can be repeated."""
    with F.scratch_dir() as root:
        _large_kill_in(root, desc, ctx)


def _large_kill_in(root, desc, ctx):
    import numpy as np
    path = root + "/large.db"
    K.reset_registries()
    F.write_db(path, F.template_bytes())
    kw = dict(UNITS, material="big-mat", adsorbate="nitrogen", temperature=77.0)
    if desc["prior_iso"]:
        small = pygaps.PointIsotherm(pressure=[0.1, 0.2, 0.3], loading=[1.0, 2.0, 2.5], **dict(kw, material="small-mat"))
        pgsql.isotherm_to_db(small, db_path=path, verbose=False)
    pre_bytes = F.read_db(path)
    pre_img, _ = F.image(path)
    pre_sum = summary(path, False)
    n = desc["n"]

    def big():
        import pandas as pd
        data = {"pressure": np.linspace(1e-3, 1.0, n), "loading": np.linspace(0.0, 9.0, n)}
        if desc["extra"]:
            data["enthalpy"] = np.linspace(30.0, 5.0, n)
        return pygaps.PointIsotherm(isotherm_data=pd.DataFrame(data), pressure_key="pressure", loading_key="loading",
                                    branch="ads", **kw)

    def call():
        pgsql.isotherm_to_db(big(), db_path=path, verbose=False)

    # number of statements of the operation (pass-through run on a copy of the file)
    with F.installed(None, None) as plan:
        call()
    n_stmt = plan.n
    post_img, _ = F.image(path)
    F.write_db(path, pre_bytes)
    K.reset_registries()
    where = f"isotherm_to_db of a {n}-point isotherm ({'with' if desc['extra'] else 'without'} extra column), killed at {desc['kind']}"
    if desc["kind"] == "exit_before_commit":
        code = F.run_killed(call, "exit_before_commit", 0)
    else:
        code = F.run_killed(call, "exit_after", n_stmt - 1)
    if code != F.EXIT_PLANNED:
        raise HarnessError(f"{where}: forked child ended with {code} instead of dying at the planned instant")
    img, problems = F.image(path, [pre_img, post_img])
    if img != pre_img:
        raise Violation(f"{where}: the next process finds neither nothing nor everything of the upload: vs pre-image "
                        f"{F.diff_images(pre_img, img)[:600]}", tag="not_atomic_killed_large")
    if problems:
        raise Violation(f"{where}: {problems}", tag="integrity")
    K.reset_registries()
    now = summary(path, False)
    check_retrievable(pre_sum, now, {"materials": set(), "adsorbates": set(), "isotherms": set(), "types": set()}, where)
    again, err = _call(call)
    if again != "ok":
        raise Violation(f"{where}: repeating the upload in a new process state is refused: {err}", tag="repeat_refused_large")
    img2, _ = F.image(path, [post_img])
    if img2 != post_img:
        raise Violation(f"{where}: the repeated upload does not produce the complete effect: {F.diff_images(post_img, img2)[:400]}",
                        tag="repeat_incomplete_large")
    ctx.label(f"n_{n}", desc["kind"], "statements_%d" % n_stmt)
    ctx.nt([n, desc["kind"], desc["extra"], desc["prior_iso"]], desc)


CHECKS = [
    Check("fault_enumeration", check_fault_enumeration, strategy=strat_scenario,
          budget={"quick": 64, "thorough": 600}, shrink=False, shrink_quick=False, exhaustive=True,
          rule="per scenario all 5N+2 (position, kind) faults; all-or-nothing image, pragma checks, readers, repeat"),
    Check("large_transaction_kill", check_large_kill, strategy=strat_large, budget={"quick": 8, "thorough": 48},
          shrink=False, shrink_quick=False,
          rule="uploads of 70 000 / 120 000 points (beyond the 2 MB page cache) killed before commit / after the last statement"),
    Check("natural_rejection", check_natural_rejection, strategy=strat_natural,
          budget={"quick": 400, "thorough": 6000}, shrink_quick=False,
          rule="operations the store itself rejects at a later statement (NULL / unsupported value, unknown property "
               "type without auto-insert, missing reference, deletion of a referenced item): pre-image exactly, "
               "pragma checks clean, readers return everything; non-trivial = at least one modifying statement had "
               "been executed before the rejected one"),
]
